"""C07 — OK means complete: output never exceeds, and on success equals, the declared size.

Theorems: Proofs/Props/C07.lean (CAB extract, generic over the decoders' counting law; the law
itself proved for stored folders).
Oracle on the implementation (CAB members, CHM files, OAB files and patches; well-formed and
malformed inputs; strict and salvage mode): bytes accepted by write() on the output handle
never exceed the declared length; strict mode: status OK <=> exactly the declared length.
Correspondence: model vs implementation on (status, written) where a model exists."""
import os, struct
from lib import common as C, minicab
from lib.pipeline import Finding
from checks import scenarios as S

PROP = "C07"
LEVEL = "proof"
THEOREMS = {"Proofs.Props.C07": ["MsPack.Cab.C07_written_le_declared", "MsPack.Cab.C07_ok_means_complete_partial",
                                 "MsPack.Cab.C07_count_law_stored", "MsPack.Oab.C07_oab_written_le_target",
                                 "MsPack.Oab.C07_oab_patch_written_le_target"],
            "Proofs.Props.C07Chm": ["MsPack.Chm.C07_chm_sec0_written_le", "MsPack.Chm.C07_chm_sec0_ok_complete", "MsPack.Chm.C03_chm_sec0_bytes",
                                    "MsPack.Chm.C07_chm_open_extract_sec0", "MsPack.Chm.C07_chm_written_le"],
            "Proofs.Props.C07Decoders": ["MsPack.Zip.C07_mszip_written_le", "MsPack.Zip.C07_mszip_ok_complete", "MsPack.Zip.C07_mszip_short_not_ok",
                                         "MsPack.Lzx.C07_lzx_written_le", "MsPack.Lzx.C07_lzx_ok_complete", "MsPack.Lzx.C07_lzx_short_not_ok",
                                         "MsPack.Qtm.C07_qtm_written_le", "MsPack.Qtm.C07_qtm_ok_complete", "MsPack.Qtm.C07_qtm_short_not_ok", "MsPack.Qtm.C07_qtm_status_not_ok",
                                         "MsPack.Cab.C07_count_law_mszip", "MsPack.Cab.C07_count_law_lzx", "MsPack.Cab.C07_count_law_qtm", "MsPack.Cab.C07_decOk_kept", "MsPack.Cab.C07_initDec_decOk",
                                         "MsPack.Cab.C07_cab_written_le", "MsPack.Cab.C07_cab_fresh_written_le", "MsPack.Cab.C07_cab_ok_complete_partial",
                                         "MsPack.Cab.C07_cab_ok_complete", "MsPack.Cab.C07_cab_cache_kept", "MsPack.Cab.C07_cab_fresh_ok_complete", "MsPack.Cab.C07_cab_read_means_feeder_failed",
                                         "MsPack.Cab.C07_cab_extract_counts", "MsPack.Cab.C07_cab_session_counts", "MsPack.Cab.C07_cab_session_counts_fresh", "MsPack.Cab.C07_cab_anymode_ok_len_partial", "MsPack.Cab.memberCheck_filelen",
                                         "MsPack.Cab.C07_cab_mszip_ok_complete", "MsPack.Cab.C07_cab_mszip_cache_kept", "MsPack.Cab.C07_cab_mszip_fresh_ok_complete", "MsPack.Cab.C07_cab_mszip_read_means_feeder_failed",
                                         "MsPack.Chm.C07_lzxBound", "MsPack.Chm.C07_chm_written_le_unconditional",
                                         "MsPack.Oab.C07_lzxCount", "MsPack.Oab.C07_oab_written_le_target_unconditional", "MsPack.Oab.C07_oab_patch_written_le_target_unconditional"],
            "Proofs.Props.C07ChmComplete": ["MsPack.Chm.C07_chm_sec1_ok_asked", "MsPack.Chm.C07_chm_sec1_ok_complete", "MsPack.Chm.C07_chm_ok_complete", "MsPack.Chm.C07_chm_sec1_ok_short"]}
ASSUMPTIONS = ["the counting law (never more than asked; OK => exactly as many as asked) is a theorem for the stored, MSZIP, LZX and Quantum decoders (C07Decoders: every source, fuel and state; MSZIP's second half needs its 32 KiB window invariant - with an empty window the model returns OK with nothing written), so: CAB extract never writes more than declared for EVERY compression type, any input, mode and cache satisfying the decoder invariant (which init establishes and every call keeps) - no decoder hypothesis left; CHM compressed members: written <= declared unconditionally; OAB full files and patches: written <= TargetSize and OK => exactly TargetSize unconditionally. "
               "OK => exactly declared in strict mode: unconditional for EVERY compression type (C07_cab_ok_complete, over a joint decoder/feeder invariant - not salvage, a sticky READ in the decoder goes with a recorded feeder error, buffers present - that fresh states satisfy and extract hands back whatever the status, C07_cab_cache_kept); both halves as ONE invariant statement over whole sessions: any list of strict-mode extract() calls threaded through the cache from a fresh decompressor, every call: written <= declared and OK => exactly declared (C07_cab_session_counts_fresh); salvage mode: the upper bound holds, OK => complete is FALSE by design (kernel-checked example: a stored folder of one 3-byte block, member declared 5: strict DATAFORMAT, salvage OK with 0 bytes - read errors are ignored there) - what survives is stated under the read-error law (C07_cab_anymode_ok_len_partial); CHM compressed members (C07ChmComplete): OK => exactly the number of bytes chmd_extract asked the decoder for, which is the declared length whenever the member lies within the section's uncompressed length; for a member reaching beyond it chmd asks for one byte more than there is and relies on the decoder failing - a counting law cannot give that, it stays with the oracle",
               "all of it is validated by the written-vs-declared oracle on the implementation and by model agreement"]
RULE = ("every extract/decompress call of: well-formed generated archives (cab, chm, oab), 4-6 malformed variants of each, the shipped fixtures incl. crashers; "
        "strict and salvage mode; short-write faults; observable = (declared, bytes accepted by write, status); non-trivial = a call with declared > 0; distinct by archive bytes + parameters")

def oab_declared(files, order, incremental):
    try:
        b = files[order[0]]
        return struct.unpack_from("<I", b, 0x10 if incremental else 0x0c)[0]
    except Exception:
        return None

def generate(ctx):
    rng = ctx.rng
    # directed: a CHM member declared to start exactly at the padded end of the LZX stream
    for z in (False, True):
        try:
            c = S.chm_member_at_padded_end(rng, last_entry_zero=z)
        except Exception:
            continue
        yield S.file_lines(c) + ["new chm", "open i0 f.chm", "extract i0 h0 1 o1", "extract i0 h0 0 o0", "extract i0 h0 1 o1b", "close i0 h0", "destroy i0"], \
              dict(family="chm.member-at-padded-end", how="directed", salvage=0, kind="chm", zero_entry=z)
    # directed: an uncompressed CHM member whose extent lies beyond the file length the header declares (bytes present)
    for (label, c, j, declared) in S.chm_sec0_beyond_length(rng):
        nm = c["meta"]["order"][0]
        yield S.file_lines(c) + ["new chm", f"open i0 {nm}", f"extract i0 h0 {j} o{j}", "close i0 h0", "destroy i0"], \
              dict(family="chm.sec0-beyond-length", how="directed", salvage=0, kind="chm", label=label)
    # directed: OAB size arithmetic at the 32-bit boundary - a later block whose size makes a running sum wrap
    # (block_max generous, plenty of data behind the header so that a copy loop would really run)
    for first in (64, 1):
        for big in (0x100000000 - first, 0xFFFFFFE0, 0xFFFFFFFF, 0x80000000):
            for flag in (0, 1):
                target = 100
                hdr = struct.pack("<IIII", 3, 1, 0xFFFFFFFF, target)
                b1 = struct.pack("<IIII", 0, first, first, 0) + bytes(first)
                b2 = struct.pack("<IIII", flag, big, big, 0) + bytes(rng.randrange(256) for _ in range(9000))
                f = hdr + b1 + b2
                yield [f"file full.oab {f.hex()}", "new oab", f"param i0 DECOMPBUF {rng.choice([16, 4096])}", "decompress i0 full.oab out", "destroy i0"], \
                      dict(family="oab.size-wrap", how="directed", salvage=0, kind="oab", oab_declared=target)
                ph = struct.pack("<IIIIIII", 3, 2, 0xFFFFFFFF, 0, target, 0, 0)
                pb1 = struct.pack("<IIII", 0, 0, 0, 0)          # an empty first block keeps the loop going
                pb2 = struct.pack("<IIII", 9000, big, rng.choice([0, 0xFFFFFFFF, 0xFFFF8001]), 0) + bytes(rng.randrange(256) for _ in range(9000))
                pf = ph + pb1 + pb2
                yield [f"file patch.oab {pf.hex()}", f"file base.oab {bytes(200).hex()}", "new oab", "decompressinc i0 patch.oab base.oab out", "destroy i0"], \
                      dict(family="oab.size-wrap", how="directed", salvage=0, kind="oab", oab_declared=target)
    # directed: a decompressor used with its DEFAULT parameters (no set_param at all - cabextract always sets them, the
    # library's other users need not) on members declared longer than their folder's blocks hold, the allocator
    # handing out memory filled with each byte: the defaults are strict mode, whatever the memory held before
    import zlib
    for comp in (0, 1):
        for blocks in ((100,), (50, 7)):
            datas = [bytes(rng.choice(b"abcdef") for _ in range(k)) for k in blocks]
            def ck(d):
                co = zlib.compressobj(9, zlib.DEFLATED, -15); return b"CK" + co.compress(d) + co.flush()
            payloads = [((ck(d) if comp else d), len(d)) for d in datas]
            have = sum(blocks)
            for extra in (1, 100):
                cab, _ = minicab.build([(comp, payloads)], [dict(name=b"a.bin", length=have + extra, offset=0, folder=0),
                                                            dict(name=b"b.bin", length=extra + 10, offset=have - 10, folder=0)])
                for fill in ("00", "01", "55", "aa", "ff"):
                    yield [f"fill {fill}", f"file x.cab {cab.hex()}", "new cab", "open i0 x.cab", "extract i0 h0 0 o0", "extract i0 h0 1 o1", "close i0 h0", "destroy i0"], \
                          dict(family="cab.default-params", how="directed", salvage=0, kind="cab", fill=fill, comp=comp)
    n = 60 if ctx.tier == "quick" else 2500
    for case in S.valid_cases(rng, n, kinds=["cab", "cab", "cab", "chm", "chm", "oab"], avoid_defects=True):
        variants = [(case["files"], "valid")] + S.malform(rng, case, 3 if ctx.tier == "quick" else 6)
        for files, how in variants:
            c2 = dict(case, files=files)
            salv = rng.choice([0, 0, 1]) if case["kind"] == "cab" else 0
            params = [("SALVAGE", salv), ("DECOMPBUF", rng.choice([4, 7, 64, 4096]))] if case["kind"] == "cab" else []
            if salv == 0 and rng.random() < 0.3: params = []          # the defaults: strict mode, 4096-byte buffer
            lines = S.file_lines(c2) + S.generic_ops(c2, params)
            meta = dict(family=case["kind"] + "." + ("valid" if how == "valid" else "malformed"), how=how, salvage=salv, kind=case["kind"])
            if case["kind"] == "oab":
                inc = case["meta"].get("open") == "incremental" or len(case["meta"]["order"]) > 1
                meta["oab_declared"] = oab_declared(files, case["meta"]["order"], inc)
            if rng.random() < 0.15:
                # a short write in the middle of an extraction
                lines = [f"fault write {rng.randint(1, 6)} short"] + lines
                meta["fault"] = "short-write"
            yield lines, meta
    fx = S.fixture_files()
    if ctx.tier == "quick": fx = fx[::3]
    for kind, p in fx:
        if kind == "kwaj": continue
        for salv in ((0, 1) if kind == "cab" else (0,)):
            params = (("SALVAGE", salv),) if kind == "cab" else ()
            yield S.fixture_ops(kind, p, params=params), dict(family=kind + ".fixture", fixture=os.path.basename(p), salvage=salv, kind=kind, sig=p + str(salv))

def calls(blocks):
    out = []
    for b in blocks or []:
        d = C.kv(b[0])
        if d["_"] in ("extract", "ffextract", "decompress", "decompressinc") and "st" in d:
            out.append(d)
    return out

def judge(ctx, meta, impl, model):
    fs = []
    for d in calls(impl):
        w = d.get("written"); decl = d.get("declared")
        if decl is None and meta.get("oab_declared") is not None: decl = str(meta["oab_declared"])
        if w in (None, "-") or decl in (None, "-"): continue
        w, decl = int(w), int(decl)
        if w > decl:
            fs.append(Finding("violation", f"{meta['family']}: {w} bytes written for a member declared {decl} (st={d.get('st')}, salvage={meta.get('salvage')})"))
        if not meta.get("salvage"):
            if d.get("st") == "0" and w != decl:
                fs.append(Finding("violation", f"{meta['family']}: status OK but {w} of {decl} declared bytes written"))
    if model is not None:
        pm = [(d.get("st"), d.get("written")) for d in calls(model)]
        pi = [(d.get("st"), d.get("written")) for d in calls(impl)]
        if meta.get("fault"): return fs       # the pure model has no host faults
        if any("unsupported" in b[0] or "FAULT" in b[0] for b in model) or any(b[0].startswith(("CRASH", "TIMEOUT")) for b in impl): return fs
        if pi != pm:
            fs.append(Finding("mismatch", f"(status, written) differ: impl={pi[:6]} model={pm[:6]}"))
    return fs

def classify(ctx, meta, finding):
    if meta.get("family") == "chm.member-at-padded-end" and "status OK but" in finding.text: return "D11"
    return None
