"""C10 — host failures are reported, never turned into silent corruption.

Three clauses, all judged on the implementation under the instrumented system:
 (a) right after open/fast_open/search/append/prepend/extract/fast_find/decompress, last_error()
     equals the status the call reported (non-OK whenever open()/fast_open() returned NULL);
 (b) under any single callback failure, the affected call either returns non-OK or produces
     exactly the result of the failure-free run;
 (c) a file at least as long as the format's header whose signature bytes are wrong is refused
     with MSPACK_ERR_SIGNATURE.
Theorems: Proofs/Props/C10.lean, C10Chm.lean (signature refusal on the CAB/SZDD/KWAJ/CHM header models, for every
file content)."""
import os, re
from lib import common as C
from lib.pipeline import Finding
from checks import faults as F, scenarios as S

PROP = "C10"
LEVEL = "proof"
THEOREMS = {"Proofs.Props.C10": ["MsPack.C10.cab_signature_refused", "MsPack.C10.szdd_signature_refused", "MsPack.C10.kwaj_signature_refused"],
            "Proofs.Props.C10Chm": ["MsPack.C10.chm_signature_refused", "MsPack.C10.chm_guid_refused", "MsPack.C10.chm_open_signature_refused", "MsPack.C10.chm_open_guid_refused"]}
ASSUMPTIONS = ["(a) and (b) are fault enumeration on the implementation (sampled in the quick tier, every call index in the thorough tier); (c) is proved on the header models and checked on the implementation for all five formats",
               "a fault 'affects' the call during which it fires; later calls are compared up to the first difference"]
RULE = ("fault runs as in C09 (scenarios over generated archives of all five formats x single faults of alloc/open/read/write/seek); signature cases: valid archives and random files of at least header length with 1-4 "
        "signature bytes altered; non-trivial = fault fired or signature altered; distinct by scenario + fault point")

SYNC_OPS = ("open", "fastopen", "search", "append", "prepend", "extract", "fastfind", "ffextract", "decompress", "decompressinc")
HDRLEN = {"cab": 36, "chm": 0x38, "szdd": 8, "kwaj": 14, "oab": 16}
SIGLEN = {"cab": 4, "chm": 4, "szdd": 8, "kwaj": 8}

def generate(ctx):
    return []

def op_results(blocks):
    """[(opword, kv, lines-without-counters)] for every op block"""
    out = []
    for b in blocks:
        w = b[0].split(" ", 1)[0]
        if w in C.OPWORDS and w != "end":
            out.append((w, C.kv(F.strip_counters(b[0])), [F.strip_counters(l) for l in b if not l.startswith(("MONITOR", "ev "))]))
    return out

def sync_findings(meta, blocks):
    fs = []
    for (w, d, lines) in op_results(blocks):
        if w not in SYNC_OPS or "st" not in d: continue
        st, err = d.get("st"), d.get("err")
        if err in (None, "-"): continue
        if "NULL" in lines[0].split(" ")[1:2] and w in ("open", "fastopen") and err == "0":
            fs.append(Finding("violation", f"{meta['family']} fault={meta.get('fault')}: {w} returned NULL but last_error() is OK"))
        elif w == "search":
            continue     # search() returns a list, not a status; last_error() *is* its status
        elif st != err:
            fs.append(Finding("violation", f"{meta['family']} fault={meta.get('fault')}: after {w} the call reported {st} but last_error() = {err}"))
    return fs

def compare_with_reference(meta, ref_blocks, blocks):
    """clause (b): every op whose result differs from the failure-free run must report a failure —
    the call during which the fault fired, and every later call as well (a later call that "succeeds"
    with different output is the silent corruption the property forbids).  Once an open/search
    has come out differently the handle numbers of the case no longer mean the same objects, so
    the comparison stops there."""
    ref = op_results(ref_blocks); got = op_results(blocks)
    # calls of the faulted kind made by each op of the failure-free run (to say where inside the differing op the fault fell)
    fk = (meta.get("fault") or "").split(); kind = fk[1] if len(fk) > 2 else None
    try: kglob = int(fk[2])
    except Exception: kglob = None
    per_op = []
    for b in ref_blocks:
        w = b[0].split(" ", 1)[0]
        if w in C.OPWORDS and w != "end":
            m = F._calls_re.search(b[0])
            per_op.append(dict(zip(F.KINDS, map(int, m.groups()[:5]))).get(kind, 0) if (m and kind) else 0)
    for i, ((rw, rd, rl), (gw, gd, gl)) in enumerate(zip(ref, got)):
        if rl == gl: continue
        failed = (gd.get("st") not in (None, "0")) or ("NULL" in gl[0] and gw in ("open", "fastopen", "new")) or gl[0].endswith(("bad-handle", "dead-handle", "bad-index"))
        if gw == "search":      # search() has no status of its own: last_error() is what it reports
            failed = gd.get("err") not in (None, "0")
        if not failed:
            rel = (kglob - sum(per_op[:i])) if (kglob is not None and i < len(per_op)) else None
            return [Finding("violation", f"{meta['family']} {meta['fault']} [call #{rel} of that kind inside this {gw}]: {gw} reports success but its result differs from the failure-free run: got '{gl[0][:150]}' ({len(gl)} lines) vs '{rl[0][:150]}' ({len(rl)} lines)")]
        if gw in ("open", "fastopen", "search", "new", "append", "prepend"):
            break
    return []

def run_given(ctx, res, cw, viol, mism):
    """witnesses of known findings / --replay files: rebuild the failure-free twin by dropping the fault lines"""
    given = list(cw.paths)
    for p in given:
        meta = cw.meta[p]
        lines = open(p).read().splitlines()
        fl = [l for l in lines if l.startswith("fault ")]
        meta.setdefault("family", "replay"); meta["fault"] = fl[0] if fl else None
        twin = cw.add([l for l in lines if not l.startswith("fault ")], dict(meta, twin=True))
        out = C.run_tool(os.path.join(ctx.hdir, "apiharness"), [p, twin])
        res.cov["evaluations"] += 1
        for f in sync_findings(meta, out.get(p, [])): viol.append((p, meta, f))
        if fl:
            for f in compare_with_reference(meta, out.get(twin, []), out.get(p, [])): viol.append((p, meta, f))
    return set(cw.paths)

def custom_run(ctx, res, cw):
    viol, mism = [], []
    pre = run_given(ctx, res, cw, viol, mism)
    if any(cw.meta[p].get("replay") for p in pre):
        return viol, mism
    n = 22 if ctx.tier == "quick" else 150
    base = F.scenarios(ctx, n)
    for lines, meta in base:
        cw.add(["edges on"] + lines, meta)
    base_paths = [p for p in cw.paths if p not in pre]
    prof = F.profile(ctx, base_paths)
    for p in base_paths:
        tot, blocks = prof.get(p, ({}, []))
        meta = cw.meta[p]
        res.cov["evaluations"] += 1
        for f in sync_findings(meta, blocks): viol.append((p, meta, f))
        lines = [l for l in open(p).read().splitlines() if l != "edges on"]
        for (kind, k, mode) in F.fault_points(ctx, tot, exhaustive=meta.get("exhaustive", False)):
            fl = f"fault {kind} {k}" + (f" {mode}" if mode else "")
            cw.add([fl] + lines, dict(meta, fault=fl, base=p))
    fpaths = [p for p in cw.paths if p not in set(base_paths) and p not in pre]
    out = C.run_tool(os.path.join(ctx.hdir, "apiharness"), fpaths)
    dist = {}
    for p in fpaths:
        meta = cw.meta[p]; blocks = out.get(p)
        res.cov["evaluations"] += 1
        if blocks is None: continue
        dist[meta["fault"].split()[1]] = dist.get(meta["fault"].split()[1], 0) + 1
        if any(b[0].startswith(("CRASH", "TIMEOUT")) for b in blocks):
            mism.append((p, meta, Finding("mismatch", f"{meta['family']} {meta['fault']}: " + next(b[0] for b in blocks if b[0].startswith(("CRASH", "TIMEOUT")))[:200]))); continue
        for f in sync_findings(meta, blocks): viol.append((p, meta, f))
        for f in compare_with_reference(meta, prof[meta["base"]][1], blocks): viol.append((p, meta, f))
    # (a) again: a successful call right after a failed one on the same decompressor
    rng = ctx.rng
    aft = []
    for case in S.valid_cases(rng, 12 if ctx.tier == "quick" else 100, kinds=["cab", "chm", "szdd", "kwaj"], avoid_defects=True):
        kind = case["kind"]; nm = case["meta"]["order"][0]
        lines = S.file_lines(case) + [f"new {kind}", "open i0 no-such-file", f"open i0 {nm}"]
        if kind in ("szdd", "kwaj"): lines += ["decompress i0 no-such-file out1", "extract i0 h0 - out2", f"decompress i0 {nm} out3"]
        elif kind == "chm": lines += ["fastopen i0 no-such-file", f"fastopen i0 {nm}", "extract i0 h0 0 o0"]
        else: lines += ["search i0 no-such-file", "extract i0 h0 0 o0"]
        lines += ["close i0 h0", "destroy i0"]
        aft.append(cw.add(lines, dict(family=kind + ".after-failure", kind=kind)))
    out = C.run_tool(os.path.join(ctx.hdir, "apiharness"), aft)
    for p in aft:
        res.cov["evaluations"] += 1
        for f in sync_findings(cw.meta[p], out.get(p, [])): viol.append((p, cw.meta[p], f))
    # (c) signatures
    sig_paths = []
    for case in S.valid_cases(rng, 30 if ctx.tier == "quick" else 400, kinds=["cab", "chm", "szdd", "kwaj"], avoid_defects=True):
        kind = case["kind"]; nm = case["meta"]["order"][0]; b = bytearray(case["files"][nm])
        if len(b) < HDRLEN[kind]: continue
        for _ in range(rng.randint(1, 3)):
            b[rng.randrange(SIGLEN[kind])] ^= rng.choice([1, 0x20, 0x80, 0xff])
        if bytes(b[:SIGLEN[kind]]) == case["files"][nm][:SIGLEN[kind]]: continue
        lines = [f"file {nm} {bytes(b).hex()}", f"new {kind}", f"open i0 {nm}"] + ([f"fastopen i0 {nm}"] if kind == "chm" else []) + ["destroy i0"]
        sig_paths.append(cw.add(lines, dict(family=kind + ".badsig", kind=kind)))
    out = C.run_tool(os.path.join(ctx.hdir, "apiharness"), sig_paths)
    mout = C.run_tool(C.DRIVER, sig_paths)
    for p in sig_paths:
        meta = cw.meta[p]; res.cov["evaluations"] += 1
        for (w, d, lines) in op_results(out.get(p, [])):
            if w in ("open", "fastopen") and d.get("st") != "7":
                viol.append((p, meta, Finding("violation", f"{meta['family']}: a file of header length with wrong signature bytes is answered {lines[0][:80]} instead of MSPACK_ERR_SIGNATURE (7)")))
        pi = [l[0] for (w, d, l) in op_results(out.get(p, [])) if w == "open"]
        pm = [l[0] for (w, d, l) in op_results(mout.get(p, [])) if w == "open"]
        if pm and "unsupported" not in pm[0]:
            res.cov["traces_validated_against_impl"] += 1
            if pi != pm: mism.append((p, meta, Finding("mismatch", f"signature case: impl {pi} model {pm}")))
    res.cov["distinct_nontrivial"] = len(cw.paths)
    res.cov["input_distribution"] = {"scenarios": len(base_paths), "fault_runs_by_kind": dist, "signature_cases": len(sig_paths)}
    return viol, mism

def classify(ctx, meta, finding):
    t = finding.text
    if "fastfind" in t and "last_error() = 0" in t and "reported 2" in t: return "D6"
    if "search reports success" in t and ("fault read" in t or "fault seek" in t):
        # the finding is about failures while a *candidate* is parsed; the two seeks of mspack_sys_filelen() come first
        m = re.search(r"\[call #(-?\d+) of that kind inside this search\]", t)
        if "fault seek" in t and m and int(m.group(1)) <= 2: return None
        return "D13rs"
    if "open reports success" in t and "fault read" in t and meta.get("salvage"): return "D22r"
    return None
