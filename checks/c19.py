"""C19 — separate instances are independent (one instance per thread is safe).

Theorems (Proofs/Props/C19.lean): the writable-static inventory extracted from today's objects and
sources is exactly the four known never-written objects; any interleaving of per-instance operation
lists yields each instance's solo results (generic + CAB instance).
Search/validation: ThreadSanitizer build, N threads each replaying scenarios on their own instances
over shared read-only inputs; a TSan report or a result differing from the solo run is a violation."""
import glob, os, subprocess
from lib import common as C
from lib.pipeline import Finding

PROP = "C19"
LEVEL = "proof"
USES_MODEL = False
THEOREMS = {"Proofs.Props.C19": ["MsPack.C19.writable_statics_inventory", "MsPack.C19.writable_statics_never_written", "MsPack.C19.imports_state_free",
                                 "MsPack.C19.instances_independent", "MsPack.C19.cab_instances_independent"]}
ASSUMPTIONS = ["a Lean model cannot exhibit a C data race: the theorem covers the mechanism (no writable statics that are written; per-instance state only)",
               "the C memory model, schedules and libc re-entrancy of the default system are observed only through the TSan runs",
               "inventory = nm on objects compiled with gcc -O1 from the current sources (writable-section symbols and undefined symbols) + a textual scan of every line naming those objects",
               "imports_state_free is proved against an allow-list of libc entry points (in the theorem's file) that POSIX/glibc document as keeping no process-wide mutable state; glibc's behaviour behind those entry points is trusted"]
RULE = ("scenario cases for all five formats (fixtures + generated small archives), run concurrently by 2/4/8 threads under TSan, each thread's "
        "output compared with the solo run of the same scenario; non-trivial = a scenario that performs at least one decompression; distinct by file hash")

def generate(ctx):
    d = os.path.join(C.VERIF, "harness", "cases")
    for p in sorted(glob.glob(os.path.join(d, "*.case"))):
        if p.endswith("_default.case"): continue
        txt = open(p).read()
        if "fault " in txt: continue
        yield txt.splitlines(), dict(family="fixture." + os.path.basename(p)[:-5])
    from checks import scenarios
    for lines, meta in scenarios.small_all_formats(ctx.rng, 6 if ctx.tier == "quick" else 30):
        yield lines, meta

def custom_run(ctx, res, cw):
    exe = os.path.join(ctx.hdir, "apiharness-tsan")
    viol, mism = [], []
    rounds = [(2, 1), (4, 1), (8, 2)] if ctx.tier == "quick" else [(2, 5), (4, 10), (8, 20), (16, 10)]
    env = dict(os.environ, TSAN_OPTIONS="halt_on_error=0 exitcode=66 report_signal_unsafe=0")
    for (n, reps) in rounds:
        for rep in range(reps):
            # rotate so that different scenarios meet
            paths = cw.paths[rep % len(cw.paths):] + cw.paths[:rep % len(cw.paths)]
            if n < len(paths):
                # several runs so that every scenario takes part
                groups = [paths[i:i + n] for i in range(0, len(paths), n)]
            else:
                groups = [paths]
            for g in groups:
                r = subprocess.run([exe, "--threads", str(max(n, len(g)))] + g, capture_output=True, text=True, errors="replace", env=env, timeout=600)
                res.cov["evaluations"] += max(n, len(g))
                same = r.stdout.count(" same")
                res.cov["traces_validated_against_impl"] += same
                if "DIFFERENT" in r.stdout:
                    line = next(l for l in r.stdout.splitlines() if "DIFFERENT" in l)
                    viol.append((g[0], {"family": "threads", "threads": n}, Finding("violation", f"{n} threads: {line}: concurrent result differs from solo result")))
                if "ThreadSanitizer" in r.stderr or r.returncode == 66:
                    summ = next((l for l in r.stderr.splitlines() if l.startswith("SUMMARY")), "TSan report")
                    viol.append((g[0], {"family": "threads", "threads": n}, Finding("violation", f"{n} threads: {summ}")))
                elif r.returncode not in (0, 1):
                    mism.append((g[0], {"family": "threads"}, Finding("mismatch", f"tsan harness exit {r.returncode}: {r.stderr[-300:]}")))
    res.cov["distinct_nontrivial"] = len(cw.paths)
    return viol, mism
