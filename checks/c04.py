"""C04 — every call terminates after work bounded by input and output size.

Theorems: Proofs/Props/C04.lean (the models' explicit `hang` outcomes — the restart loop of
cabd_find, the CAB feeder — are unreachable; every other model function is total by structural or
well-founded recursion, which Lean checks at definition time).
Validation on the implementation: the harness counts instrumented control-flow edges per API call
(sanitizer coverage); observable = edges <= K * (bytes of all input files + bytes of output allowed
+ C) with K calibrated on the clean tree with wide head-room, plus a per-case watchdog.  Inputs:
malformed variants of generated archives of all five formats, the shipped crashers, and
pathological constructions (CK-less MSZIP input, zero-progress blocks, cyclic CHM links, fake
signatures every 4 bytes with SEARCHBUF=4, cabinet headers with degenerate size/offset fields under strict and
salvage search, MSZIP stored blocks running past the window)."""
import os, re
from lib import common as C, minicab
from lib.pipeline import Finding
from checks import scenarios as S

PROP = "C04"
LEVEL = "proof"
THEOREMS = {"Proofs.Props.C14": ["MsPack.Cab.C14_never_hangs"],
            "Proofs.Props.C04": ["MsPack.Cab.C04_feeder_fuel_suffices"],
            "Proofs.Props.C04Loops": ["MsPack.C04_lzss_no_hang", "MsPack.C04_szdd_decompress_no_hang", "MsPack.C04_kwaj_decompress_no_hang", "MsPack.C04_oab_decompress_driver_no_hang",
                                      "MsPack.C04_oab_decompressIncremental_driver_no_hang", "MsPack.C04_chm_fast_find_no_hang", "MsPack.C04_chm_read_headers_no_hang",
                                      "MsPack.C04_chm_extract_sec0_no_hang", "MsPack.C04_lzh_no_hang", "MsPack.C04_zip_decompress_no_hang", "MsPack.C04_lzx_no_hang",
                                      "MsPack.C04_cab_noned_no_hang", "MsPack.C04_cab_mszip_no_hang", "MsPack.C04_oab_sys_decompress_no_hang", "MsPack.C04_kwaj_sys_decompress_no_hang"],
            "Proofs.Props.C04Qtm": ["MsPack.C04_qtm_no_hang", "MsPack.C04_qtm_init_sync", "MsPack.C04_qtm_sync_kept",
                                    "MsPack.C04_cab_qtm_no_hang", "MsPack.C04_qtm_stuck_4G"],
            "Proofs.Props.C04CabExtract": ["MsPack.CabFuel.extract_nh", "MsPack.CabFuel.session_nh", "MsPack.CabFuel.callOk_none", "MsPack.CabFuel.callOk_mszip", "MsPack.CabFuel.staticFuel_single",
                                           "MsPack.CabFuel.C04_cab_session_stored_mszip", "MsPack.CabFuel.C04_cab_session_stored_mszip_single",
                                           "MsPack.CabFuel.C04_cab_extract_no_hang_partial", "MsPack.CabFuel.C04_cab_session_no_hang_partial"],
            "Proofs.Props.C04CabSession": ["MsPack.CabFuel.zipSticky", "MsPack.CabFuel.callOk_full", "MsPack.CabFuel.freshOk_full", "MsPack.CabFuel.C04_cab_extract_no_hang",
                                           "MsPack.CabFuel.C04_cab_session_no_hang", "MsPack.CabFuel.C04_cab_session_no_hang_single", "MsPack.Zip.ZipSticky.decompress_sticky"],
            "Proofs.Props.C04ChmSession": ["MsPack.Chm.c04_lzxCall", "MsPack.Chm.C04_chm_extract_no_hang_inv", "MsPack.Chm.C04_chm_session_no_hang", "MsPack.Chm.C04_chm_session_fresh_no_hang"]}
ASSUMPTIONS = ["wall-clock performance is not covered; the bound is in instrumented edges (implementation) and in recursion measures (model)",
               "the models' loops are total functions with a fuel argument; theorems (C04Loops): with the fuel the entry points pass, the out-of-fuel outcome is unreachable for every input - LZSS/SZDD/KWAJ (all five methods, pure and effect models), the OAB container and copy loops, CHM header reading, fast_find (descent and walk bounded by the visits counter), section-0 extraction, the KWAJ LZH, MSZIP and LZX decoders over any finite source (measure: real bits not yet consumed), the CAB stored-folder loop, feeder and scanner; each needs a measure that every iteration decreases, so a loop that can spin breaks its theorem; "
               "cabd_extract as a whole (C04CabExtract): a fuel invariant established by the fresh folder state and kept by every call gives 'no session of extract() calls ever runs out of fuel' - carried out for ALL methods (C04CabSession): the three hypotheses of the skeleton are discharged (MSZIP's sticky error in strict and repair mode; Quantum's and LZX's measures do not grow over an OK call), so C04_cab_session_no_hang: any list of extract() calls, any methods, any order, failing calls included, from a fresh decompressor never runs out of fuel - for folders inside one cabinet with no condition on the files (C04_cab_session_no_hang_single), for chains under a static condition on the MODEL's fuel (its bound can genuinely fall short for sets re-entering one file many times: an artefact of the model, not of the C); premise DECOMPBUF >= 1 (cabd_param refuses less than 4); left as hypotheses: that the CAB decoders' fuel (chainFuel) exceeds the bits the feeder can still deliver (the first bound, counting every file once, was too small for a set that re-enters one file many times: found by this proof work, the model's bound was raised), CHM (C04ChmSession): the cached-decoder buffer bound that the per-call theorem assumed is now an invariant (the cached LZX decoder has buffered no more input than the file delivered up to the saved inoffset) which a fresh instance has and every extract call of either section, with any outcome, keeps: no session of extract() calls on opened headers ever runs out of fuel (C04_chm_session_fresh_no_hang); Quantum (C04Qtm): the decoder cannot hang over any finite source for every state a session started by qtmd_init reaches (invariant Sync: o_ptr <= o_end = window_posn, 1 <= frame_todo <= 32768, kept by every call) and every request below 2^32 - 2^21 (renormalisation bounded by 16 rounds, every symbol advances window_posn, block-loop measure 2*(out_bytes - stored) + [window full]); the request bound is sharp: C04_qtm_stuck_4G shows the model spinning for out_bytes = 2^32, and so does qtmd.c (observation O3, DESIGN 0.4: frame_end is an unsigned int; not reachable through cabd, which caps requests below 2^31)",
               "K and C are calibration constants (edges per byte), not derived"]
RULE = ("per API call: edges executed vs. K*(sum of input file sizes + declared output + 4096); malformed variants of generated archives, fixtures, pathological constructions; "
        "non-trivial = a call that executed at least 1000 edges; distinct by archive bytes + op")

K_EDGES_PER_BYTE = 2500         # measured maxima on the clean tree: below 60 edges/byte typically, ~800 for OAB/LZX streams made of
                                # many tiny LZX blocks (every block header rebuilds three decode tables); see evidence: max_ratio
C_CONST = 500000
WATCHDOG = "20"

def pathological(rng):
    out = []
    # MSZIP folder whose data never contains "CK": the scan must stop at end of input
    cab, _ = minicab.build([(1, [(bytes(30000), 32768)])], [dict(name=b"z.bin", length=100, offset=0, folder=0)])
    out.append(([f"file x.cab {cab.hex()}", "new cab", "open i0 x.cab", "extract i0 h0 0 o", "close i0 h0", "destroy i0"], dict(family="mszip.no-ck")))
    # Quantum folder of zeros (never a 0xFF trailer except the injected one)
    cab, _ = minicab.build([(2 | 10 << 8, [(bytes(30000), 32768)] * 3)], [dict(name=b"q.bin", length=90000, offset=0, folder=0)])
    out.append(([f"file x.cab {cab.hex()}", "new cab", "open i0 x.cab", "extract i0 h0 0 o", "close i0 h0", "destroy i0"], dict(family="qtm.zeros")))
    # many empty blocks
    cab, _ = minicab.build([(0, [(b"", 1)] * 2000 + [(b"x" * 10, 10)])], [dict(name=b"e.bin", length=10, offset=0, folder=0)])
    out.append(([f"file x.cab {cab.hex()}", "new cab", "open i0 x.cab", "extract i0 h0 0 o", "close i0 h0", "destroy i0"], dict(family="cab.empty-blocks")))
    # search: a fake signature every 4 bytes, smallest buffer
    blob = b"MSCF" * 3000
    out.append(([f"file b.bin {blob.hex()}", "new cab", "param i0 SEARCHBUF 4", "search i0 b.bin", "destroy i0"], dict(family="cab.search-fakes")))
    blob = (b"MSCF" + bytes(4) + b"\xff\xff\x00\x00" + bytes(4) + b"\x10\x00\x00\x00") * 600
    out.append(([f"file b.bin {blob.hex()}", "new cab", "param i0 SEARCHBUF 7", "search i0 b.bin", "destroy i0"], dict(family="cab.search-plausible-fakes")))
    # search: real cabinet headers whose size / offset fields are degenerate (0, 1, below the files offset, huge),
    # strict and salvage; the restart offset after a hit is derived from these fields
    import struct
    cab, _ = minicab.build([(0, [(b"hello world", 11)])], [dict(name=b"a.bin", length=11, offset=0, folder=0)])
    for field, off in (("cbCabinet", 8), ("coffFiles", 16)):
        for val in (0, 1, 35, 36, 0x7fffffff, 0xffffffff):
            c2 = bytearray(cab); struct.pack_into("<I", c2, off, val)
            for prefix in (b"", b"junk" * 5):
                blob = prefix + bytes(c2) + b"tail" * 8 + cab
                for salv in (0, 1):
                    out.append(([f"file b.bin {blob.hex()}", "new cab", f"param i0 SALVAGE {salv}", f"param i0 SEARCHBUF {rng.choice([4, 64, 32768])}", "search i0 b.bin", "destroy i0"],
                                dict(family="cab.search-size-fields", field=field, value=val, salvage=salv)))
    for cb, cf in ((0xFFFFFFFF, 0x80000000), (0x80000000, 0x80000000), (0xFFFFFF00, 0xFFFFFFFF), (0x80000001, 44), (0xFFFFFFFF, 0)):
        c2 = bytearray(cab); struct.pack_into("<I", c2, 8, cb); struct.pack_into("<I", c2, 16, cf)
        for blob in (cab + bytes(c2), b"x" + bytes(c2) + cab, cab + bytes(c2) + b"pad" * 40):
            for salv in (0, 1):
                out.append(([f"file b.bin {blob.hex()}", "new cab", f"param i0 SALVAGE {salv}", "search i0 b.bin", "destroy i0"],
                            dict(family="cab.search-size-fields", field="both", value=[cb, cf], salvage=salv)))
    # join sequences that would close a circle over three or four cabinets (no input is read at all: a call that does not
    # return here spins on the lists themselves)
    cabs3 = [minicab.build([(0, [(b"data%d" % i, 5)])], [dict(name=b"f%d.bin" % i, length=5, offset=0, folder=0)], cab_index=i)[0] for i in range(4)]
    for seq in (["append i0 h0 h1", "append i0 h1 h2", "append i0 h2 h0"], ["prepend i0 h1 h0", "prepend i0 h2 h1", "prepend i0 h0 h2"],
                ["append i0 h0 h1", "append i0 h1 h2", "append i0 h2 h3", "append i0 h3 h0"], ["append i0 h0 h1", "append i0 h2 h3", "append i0 h1 h2", "prepend i0 h0 h3"]):
        out.append(([f"file c{i}.cab {c.hex()}" for i, c in enumerate(cabs3)] + ["new cab"] + [f"open i0 c{i}.cab" for i in range(4)] + seq + ["close i0 h0", "destroy i0"],
                    dict(family="cab.join-circle")))
    # MSZIP: stored deflate blocks whose LEN runs past the 32768-byte window, data present
    def stored(n, data=None):
        data = bytes(n) if data is None else data
        return b"\x01" + struct.pack("<HH", n, n ^ 0xFFFF) + data
    for name, body in (("stored-32768", stored(32768)), ("stored-32769", stored(32769)), ("stored-38000", stored(38000)),
                       ("stored-40000-short", stored(40000, bytes(100))),
                       ("two-stored", b"\x00" + struct.pack("<HH", 32700, 32700 ^ 0xFFFF) + bytes(32700) + stored(100))):
        blk = b"CK" + body
        cab2, _ = minicab.build([(1, [(blk, 32768)])], [dict(name=b"z.bin", length=32768, offset=0, folder=0)])
        for salv in (0, 1):
            out.append(([f"file x.cab {cab2.hex()}", "new cab", f"param i0 SALVAGE {salv}", "open i0 x.cab", "extract i0 h0 0 o", "close i0 h0", "destroy i0"],
                        dict(family="mszip.stored-overrun", variant=name, salvage=salv)))
        kw = b"KWAJ\x88\xf0\x27\xd1" + struct.pack("<HHH", 4, 14, 0) + struct.pack("<H", len(blk) & 0xFFFF) + blk
        if len(blk) <= 0xFFFF:
            out.append(([f"file f.kwj {kw.hex()}", "new kwaj", "open i0 f.kwj", "extract i0 h0 - o", "close i0 h0", "destroy i0"],
                        dict(family="mszip.stored-overrun", variant=name, container="kwaj")))
    return out

def chm_cycles(rng):
    """CHMs whose directory chunks are linked in a cycle: (a) PMGL-only walk, last chunk's NextChunk
    pointing back at the first; (b) an index (PMGI) chunk whose entries point at itself"""
    import struct
    out = []
    try:
        from vgen import chm
    except Exception:
        return out
    tries = 0
    while len(out) < 4 and tries < 200:
        tries += 1
        try:
            c = chm.random_case(rng, "small")
        except Exception:
            continue
        nm = c["meta"]["order"][0]; b = bytearray(c["files"][nm])
        it = b.find(b"ITSP")
        pm = []
        i = 0
        while True:
            i = b.find(b"PMGL", i)
            if i < 0: break
            pm.append(i); i += 4
        if it < 0 or len(pm) < 2: continue
        chunk_size = struct.unpack_from("<I", b, it + 0x10)[0]
        first = (pm[0] - (it + 0x54)) // chunk_size if chunk_size else 0
        # (a) no index: PMGL chain closed into a ring
        struct.pack_into("<I", b, it + 0x1C, 0xFFFFFFFF)
        for k, off in enumerate(pm):
            struct.pack_into("<I", b, off + 0x10, first + (k + 1) % len(pm))
        out.append(([f"file {nm} {bytes(b).hex()}", "new chm", f"fastopen i0 {nm}", "fastfind i0 h0 7a7a7a7a7a7a7a7a", "close i0 h0", "destroy i0"],
                    dict(family="chm.pmgl-cycle")))
    # (b) an index chunk whose entries all point back at the index chunk itself, the header's "depth" honest, zero and huge
    def encint_at(buf, p):
        v = 0; q = p
        while True:
            c = buf[q]; q += 1; v = (v << 7) | (c & 0x7F)
            if not c & 0x80: return v, q
    made = 0; tries = 0
    while made < 3 and tries < 200:
        tries += 1
        try:
            c = chm.random_case(rng, "small", index_levels=1)
        except Exception:
            continue
        nm = c["meta"]["order"][0]; b = bytearray(c["files"][nm])
        it = b.find(b"ITSP")
        if it < 0 or c["meta"].get("depth") != 2 or not c["members"]: continue
        chunk_size = struct.unpack_from("<I", b, it + 0x10)[0]; root = struct.unpack_from("<I", b, it + 0x1C)[0]
        off = it + 0x54 + root * chunk_size
        if b[off:off + 4] != b"PMGI" or root >= 128: continue
        n = struct.unpack_from("<H", b, off + chunk_size - 2)[0]; p = off + 8
        for _ in range(n):
            ln, p = encint_at(b, p); p += ln
            _, q = encint_at(b, p)
            b[p:q] = b"\x80" * (q - p - 1) + bytes([root]); p = q
        made += 1
        names = [c["members"][0]["name"], c["members"][-1]["name"], b"/zzzz"]
        for depth in (2, 0, 1, 0xFFFFFFFF, 0x7FFFFFFF, 0x10000):
            b2 = bytearray(b); struct.pack_into("<I", b2, it + 0x18, depth)
            out.append(([f"file {nm} {bytes(b2).hex()}", "new chm", f"fastopen i0 {nm}"] + [f"fastfind i0 h0 {x.hex() or '='}" for x in names] + ["close i0 h0", "destroy i0"],
                        dict(family="chm.pmgi-cycle", depth=depth)))
    return out

def generate(ctx):
    rng = ctx.rng
    for lines, meta in pathological(rng) + chm_cycles(rng):
        yield ["edges on"] + lines, meta
    for (label, case, j, declared) in S.chm_sec0_beyond_length(rng):
        nm = case["meta"]["order"][0]
        yield ["edges on"] + S.file_lines(case) + ["new chm", f"open i0 {nm}", f"extract i0 h0 {j} o{j}", "close i0 h0", "destroy i0"], \
              dict(family="chm.sec0-beyond-length", label=label)
    n = 50 if ctx.tier == "quick" else 2500
    for case in S.valid_cases(rng, n, avoid_defects=True):
        for files, how in [(case["files"], "valid")] + S.malform(rng, case, 3 if ctx.tier == "quick" else 6):
            c2 = dict(case, files=files)
            params = [("SALVAGE", rng.choice([0, 1])), ("DECOMPBUF", rng.choice([4, 4096]))] if case["kind"] == "cab" else []
            lines = ["edges on"] + S.file_lines(c2) + S.generic_ops(c2, params)
            if case["kind"] == "chm" and case["members"]:
                nm = case["meta"]["order"][0]
                lines = lines[:-2] + [f"fastopen i0 {nm}", f"fastfind i0 h1 {case['members'][0]['name'].hex() or '='}", "close i0 h1", "close i0 h0", "destroy i0"]
            yield lines, dict(family=case["kind"] + "." + ("valid" if how == "valid" else "malformed"), how=how)
    fx = S.fixture_files()
    if ctx.tier == "quick": fx = [f for f in fx if "cve" in f[1] or "loop" in f[1]] + fx[:8]
    for kind, p in fx:
        yield ["edges on"] + S.fixture_ops(kind, p), dict(family=kind + ".fixture", fixture=os.path.basename(p), sig=p)

_edges = re.compile(r" edges=(\d+)")
_stats = {"max_ratio": 0.0, "max_edges": 0, "calls": 0, "big_calls": 0}

def insize(lines):
    tot = 0
    for l in lines:
        t = l.split(" ")
        if t[0] == "file" and len(t) > 2: tot += len(t[2]) // 2
        elif t[0] == "fileref":
            try: tot += os.path.getsize(t[2])
            except OSError: pass
    return tot

def judge(ctx, meta, impl, model):
    fs = []
    total_in = meta.get("_insize")
    for b in impl:
        if b[0].startswith("TIMEOUT"):
            fs.append(Finding("violation", f"{meta['family']}: {b[0]} — the call did not return within {WATCHDOG}s"))
        m = _edges.search(b[0])
        if m:
            e = int(m.group(1)); d = C.kv(b[0])
            out_allowed = int(d.get("declared", "0")) if d.get("declared", "-").isdigit() else int(d.get("written", "0")) if d.get("written", "-").isdigit() else 0
            budget = K_EDGES_PER_BYTE * (meta["insize"] + out_allowed) + C_CONST
            _stats["calls"] += 1
            if e >= 1000: _stats["big_calls"] += 1
            _stats["max_edges"] = max(_stats["max_edges"], e)
            _stats["max_ratio"] = max(_stats["max_ratio"], e / (meta["insize"] + out_allowed + 4096))
            if e > budget:
                fs.append(Finding("violation", f"{meta['family']}: {d['_']} executed {e} edges for {meta['insize']} input bytes and {out_allowed} output bytes allowed (budget {budget})"))
    if model is not None:
        for b in model:
            if "HANG" in b[0] or "hang" in b[0]:
                fs.append(Finding("mismatch", f"{meta['family']}: the model takes its `hang` outcome: {b[0][:120]}"))
    return fs

def distribution(ctx):
    return dict(_stats, K=K_EDGES_PER_BYTE, C=C_CONST)

def classify(ctx, meta, finding):
    if meta.get("family") == "chm.pmgl-cycle" and "TIMEOUT" in finding.text: return "D5"
    return None
