#!/usr/bin/env python3
"""Translator: re-extracts tables, constants and inventories from the CURRENT /repo working tree
and (re)writes /verif/lean/MsPack/Generated/*.lean (only when content changed).

  Tables.lean     every static const numeric table of the decoders (by preprocessing + tokenising)
  Consts.lean     macro values, array dimensions, struct sizes (by compiling and running a probe
                  that #includes the real headers)
  Inventory.lean  objects with static storage duration that are writable (from `nm` on freshly
                  compiled objects) with every source line that mentions them; every call site of
                  mspack_system::open with its mode argument

Usage: translate.py [--repo /repo] [--out /verif/lean/MsPack/Generated] [--work DIR]
Exit 0 on success; non-zero (with a message) when the source no longer has the expected shape —
the caller treats that as a broken tie.
"""
import os, re, subprocess, sys, tempfile, shutil, argparse, json

CFLAGS = ["-DSIZEOF_OFF_T=8", "-DHAVE_INTTYPES_H=1", "-DHAVE_LIMITS_H=1", "-DHAVE_TOWLOWER=1",
          "-DHAVE_FSEEKO=1", "-DHAVE_STRING_H=1"]
LIB_TUS = ["system.c", "cabd.c", "chmd.c", "kwajd.c", "szddd.c", "oabd.c", "lzxd.c", "qtmd.c",
           "mszipd.c", "lzssd.c", "crc32.c"]

TABLES = [  # (file, C name, Lean name)
    ("lzxd.c", "position_slots", "lzxPositionSlots"),
    ("lzxd.c", "extra_bits", "lzxExtraBits"),
    ("lzxd.c", "position_base", "lzxPositionBase"),
    ("qtmd.c", "position_base", "qtmPositionBase"),
    ("qtmd.c", "extra_bits", "qtmExtraBits"),
    ("qtmd.c", "length_base", "qtmLengthBase"),
    ("qtmd.c", "length_extra", "qtmLengthExtra"),
    ("mszipd.c", "lit_lengths", "zipLitLengths"),
    ("mszipd.c", "dist_offsets", "zipDistOffsets"),
    ("mszipd.c", "lit_extrabits", "zipLitExtrabits"),
    ("mszipd.c", "dist_extrabits", "zipDistExtrabits"),
    ("mszipd.c", "bitlen_order", "zipBitlenOrder"),
    ("crc32.c", "crc32_table", "crc32Table"),
    ("chmd.c", "guids", "chmGuids"),
    ("szddd.c", "szdd_signature_expand", "szddSignatureExpand"),
    ("szddd.c", "szdd_signature_qbasic", "szddSignatureQbasic"),
]

def die(msg):
    print("translate: " + msg, file=sys.stderr)
    sys.exit(2)

def strip_comments(src):
    src = re.sub(r"/\*.*?\*/", " ", src, flags=re.S)
    src = re.sub(r"//[^\n]*", " ", src)
    return src

def parse_int(tok):
    tok = tok.strip()
    tok = re.sub(r"[uUlL]+$", "", tok)
    if tok.startswith(("0x", "0X")):
        return int(tok, 16)
    if re.fullmatch(r"0[0-7]+", tok):
        return int(tok, 8)
    if re.fullmatch(r"'(.)'", tok):
        return ord(tok[1])
    return int(tok)

def extract_table(src, name):
    m = re.search(r"\b" + re.escape(name) + r"\s*\[\s*(\d*)\s*\]\s*=\s*\{([^}]*)\}", src)
    if not m:
        return None
    body = m.group(2)
    vals = [parse_int(t) for t in body.split(",") if t.strip()]
    dim = int(m.group(1)) if m.group(1) else len(vals)
    return dim, vals

def lean_list(vals, per=12):
    lines = []
    for i in range(0, len(vals), per):
        lines.append("  " + ", ".join(str(v) for v in vals[i:i + per]))
    return "[\n" + ",\n".join(lines) + "]"

def write_if_changed(path, content):
    old = None
    if os.path.exists(path):
        old = open(path).read()
    if old != content:
        os.makedirs(os.path.dirname(path), exist_ok=True)
        with open(path, "w") as f:
            f.write(content)
        return True
    return False

PROBE = r'''
#include <stdio.h>
#include <stddef.h>
#include "system.h"
#include "cab.h"
#include "chm.h"
#include "kwaj.h"
#include "szdd.h"
#include "oab.h"
#include "lzx.h"
#include "qtm.h"
#include "mszip.h"
#include "lzss.h"
#define P(name, val) printf("%s %lld\n", name, (long long)(val))
#define DIM(st, f) (sizeof(((st *)0)->f) / sizeof(((st *)0)->f[0]))
int main(void) {
  P("errOk", MSPACK_ERR_OK); P("errArgs", MSPACK_ERR_ARGS); P("errOpen", MSPACK_ERR_OPEN);
  P("errRead", MSPACK_ERR_READ); P("errWrite", MSPACK_ERR_WRITE); P("errSeek", MSPACK_ERR_SEEK);
  P("errNomemory", MSPACK_ERR_NOMEMORY); P("errSignature", MSPACK_ERR_SIGNATURE);
  P("errDataformat", MSPACK_ERR_DATAFORMAT); P("errChecksum", MSPACK_ERR_CHECKSUM);
  P("errCrunch", MSPACK_ERR_CRUNCH); P("errDecrunch", MSPACK_ERR_DECRUNCH);
  P("sysOpenRead", MSPACK_SYS_OPEN_READ); P("sysOpenWrite", MSPACK_SYS_OPEN_WRITE);
  P("sysSeekStart", MSPACK_SYS_SEEK_START); P("sysSeekCur", MSPACK_SYS_SEEK_CUR); P("sysSeekEnd", MSPACK_SYS_SEEK_END);
  P("cabParamSearchbuf", MSCABD_PARAM_SEARCHBUF); P("cabParamFixmszip", MSCABD_PARAM_FIXMSZIP);
  P("cabParamDecompbuf", MSCABD_PARAM_DECOMPBUF); P("cabParamSalvage", MSCABD_PARAM_SALVAGE);
  P("cfheadSignature", cfhead_Signature); P("cfheadCabinetSize", cfhead_CabinetSize); P("cfheadFileOffset", cfhead_FileOffset);
  P("cfheadMinorVersion", cfhead_MinorVersion); P("cfheadMajorVersion", cfhead_MajorVersion);
  P("cfheadNumFolders", cfhead_NumFolders); P("cfheadNumFiles", cfhead_NumFiles); P("cfheadFlags", cfhead_Flags);
  P("cfheadSetID", cfhead_SetID); P("cfheadCabinetIndex", cfhead_CabinetIndex); P("cfheadSIZEOF", cfhead_SIZEOF);
  P("cfheadextHeaderReserved", cfheadext_HeaderReserved); P("cfheadextFolderReserved", cfheadext_FolderReserved);
  P("cfheadextDataReserved", cfheadext_DataReserved); P("cfheadextSIZEOF", cfheadext_SIZEOF);
  P("cffoldDataOffset", cffold_DataOffset); P("cffoldNumBlocks", cffold_NumBlocks); P("cffoldCompType", cffold_CompType); P("cffoldSIZEOF", cffold_SIZEOF);
  P("cffileUncompressedSize", cffile_UncompressedSize); P("cffileFolderOffset", cffile_FolderOffset); P("cffileFolderIndex", cffile_FolderIndex);
  P("cffileDate", cffile_Date); P("cffileTime", cffile_Time); P("cffileAttribs", cffile_Attribs); P("cffileSIZEOF", cffile_SIZEOF);
  P("cfdataCheckSum", cfdata_CheckSum); P("cfdataCompressedSize", cfdata_CompressedSize); P("cfdataUncompressedSize", cfdata_UncompressedSize); P("cfdataSIZEOF", cfdata_SIZEOF);
  P("cffoldCOMPTYPE_MASK", cffoldCOMPTYPE_MASK); P("cffoldCOMPTYPE_NONE", cffoldCOMPTYPE_NONE); P("cffoldCOMPTYPE_MSZIP", cffoldCOMPTYPE_MSZIP);
  P("cffoldCOMPTYPE_QUANTUM", cffoldCOMPTYPE_QUANTUM); P("cffoldCOMPTYPE_LZX", cffoldCOMPTYPE_LZX);
  P("cfheadPREV_CABINET", cfheadPREV_CABINET); P("cfheadNEXT_CABINET", cfheadNEXT_CABINET); P("cfheadRESERVE_PRESENT", cfheadRESERVE_PRESENT);
  P("cffileCONTINUED_FROM_PREV_", cffileCONTINUED_FROM_PREV); P("cffileCONTINUED_TO_NEXT_", cffileCONTINUED_TO_NEXT); P("cffileCONTINUED_PREV_AND_NEXT_", cffileCONTINUED_PREV_AND_NEXT);
  P("cabBLOCKMAX", CAB_BLOCKMAX); P("cabINPUTMAX", CAB_INPUTMAX); P("cabINPUTMAX_SALVAGE", CAB_INPUTMAX_SALVAGE); P("cabINPUTBUF", CAB_INPUTBUF);
  P("cabFOLDERMAX", CAB_FOLDERMAX); P("cabLENGTHMAX", (long long)CAB_LENGTHMAX);
  P("cabInputDim", DIM(struct mscabd_decompress_state, input));
  P("lzxMIN_MATCH", LZX_MIN_MATCH); P("lzxMAX_MATCH", LZX_MAX_MATCH); P("lzxNUM_CHARS", LZX_NUM_CHARS);
  P("lzxPRETREE_MAXSYMBOLS", LZX_PRETREE_MAXSYMBOLS); P("lzxPRETREE_TABLEBITS", LZX_PRETREE_TABLEBITS);
  P("lzxMAINTREE_MAXSYMBOLS", LZX_MAINTREE_MAXSYMBOLS); P("lzxMAINTREE_TABLEBITS", LZX_MAINTREE_TABLEBITS);
  P("lzxLENGTH_MAXSYMBOLS", LZX_LENGTH_MAXSYMBOLS); P("lzxLENGTH_TABLEBITS", LZX_LENGTH_TABLEBITS);
  P("lzxALIGNED_MAXSYMBOLS", LZX_ALIGNED_MAXSYMBOLS); P("lzxALIGNED_TABLEBITS", LZX_ALIGNED_TABLEBITS);
  P("lzxLENTABLE_SAFETY", LZX_LENTABLE_SAFETY); P("lzxFRAME_SIZE", LZX_FRAME_SIZE);
  P("lzxNUM_PRIMARY_LENGTHS", LZX_NUM_PRIMARY_LENGTHS); P("lzxNUM_SECONDARY_LENGTHS", LZX_NUM_SECONDARY_LENGTHS);
  P("lzxPretreeLenDim", DIM(struct lzxd_stream, PRETREE_len)); P("lzxMaintreeLenDim", DIM(struct lzxd_stream, MAINTREE_len));
  P("lzxLengthLenDim", DIM(struct lzxd_stream, LENGTH_len)); P("lzxAlignedLenDim", DIM(struct lzxd_stream, ALIGNED_len));
  P("lzxPretreeTableDim", DIM(struct lzxd_stream, PRETREE_table)); P("lzxMaintreeTableDim", DIM(struct lzxd_stream, MAINTREE_table));
  P("lzxLengthTableDim", DIM(struct lzxd_stream, LENGTH_table)); P("lzxAlignedTableDim", DIM(struct lzxd_stream, ALIGNED_table));
  P("lzxE8BufDim", DIM(struct lzxd_stream, e8_buf));
  P("qtmFRAME_SIZE", QTM_FRAME_SIZE);
  P("qtmM0Dim", DIM(struct qtmd_stream, m0sym)); P("qtmM4Dim", DIM(struct qtmd_stream, m4sym));
  P("qtmM5Dim", DIM(struct qtmd_stream, m5sym)); P("qtmM6Dim", DIM(struct qtmd_stream, m6sym));
  P("qtmM6lenDim", DIM(struct qtmd_stream, m6lsym)); P("qtmM7Dim", DIM(struct qtmd_stream, m7sym));
  P("zipFRAME_SIZE", MSZIP_FRAME_SIZE); P("zipLITERAL_MAXSYMBOLS", MSZIP_LITERAL_MAXSYMBOLS); P("zipLITERAL_TABLEBITS", MSZIP_LITERAL_TABLEBITS);
  P("zipDISTANCE_MAXSYMBOLS", MSZIP_DISTANCE_MAXSYMBOLS); P("zipDISTANCE_TABLEBITS", MSZIP_DISTANCE_TABLEBITS);
  P("zipLITERAL_TABLESIZE", MSZIP_LITERAL_TABLESIZE); P("zipDISTANCE_TABLESIZE", MSZIP_DISTANCE_TABLESIZE);
  P("zipWindowDim", DIM(struct mszipd_stream, window)); P("zipLiteralLenDim", DIM(struct mszipd_stream, LITERAL_len));
  P("zipDistanceLenDim", DIM(struct mszipd_stream, DISTANCE_len));
  P("kwajINPUT_SIZE", KWAJ_INPUT_SIZE); P("kwajTABLEBITS", KWAJ_TABLEBITS);
  P("kwajMATCHLEN1_SYMS", KWAJ_MATCHLEN1_SYMS); P("kwajMATCHLEN2_SYMS", KWAJ_MATCHLEN2_SYMS); P("kwajLITLEN_SYMS", KWAJ_LITLEN_SYMS);
  P("kwajOFFSET_SYMS", KWAJ_OFFSET_SYMS); P("kwajLITERAL_SYMS", KWAJ_LITERAL_SYMS);
  P("kwajMATCHLEN1_TBLSIZE", KWAJ_MATCHLEN1_TBLSIZE); P("kwajMATCHLEN2_TBLSIZE", KWAJ_MATCHLEN2_TBLSIZE); P("kwajLITLEN_TBLSIZE", KWAJ_LITLEN_TBLSIZE);
  P("kwajOFFSET_TBLSIZE", KWAJ_OFFSET_TBLSIZE); P("kwajLITERAL_TBLSIZE", KWAJ_LITERAL_TBLSIZE);
  P("kwajhSIZEOF", kwajh_SIZEOF);
  P("lzssWINDOW_SIZE", LZSS_WINDOW_SIZE); P("lzssWINDOW_FILL", LZSS_WINDOW_FILL);
  P("lzssMODE_EXPAND", LZSS_MODE_EXPAND); P("lzssMODE_MSHELP", LZSS_MODE_MSHELP); P("lzssMODE_QBASIC", LZSS_MODE_QBASIC);
  P("szddINPUT_SIZE", SZDD_INPUT_SIZE);
  P("oabheadSIZEOF", oabhead_SIZEOF); P("oabblkSIZEOF", oabblk_SIZEOF); P("patchheadSIZEOF", patchhead_SIZEOF); P("patchblkSIZEOF", patchblk_SIZEOF);
  P("chmheadSIZEOF", chmhead_SIZEOF); P("chmhstSIZEOF", chmhst_SIZEOF); P("chmhst3SIZEOF", chmhst3_SIZEOF); P("chmhs0SIZEOF", chmhs0_SIZEOF);
  P("chmhs1SIZEOF", chmhs1_SIZEOF); P("pmglHeaderSIZEOF", pmgl_headerSIZEOF); P("pmgiHeaderSIZEOF", pmgi_headerSIZEOF);
  P("lzxcdSIZEOF", lzxcd_SIZEOF); P("lzxrtHeaderSIZEOF", lzxrt_headerSIZEOF);
  return 0;
}
'''

def gen_tables(repo, outdir):
    msp = os.path.join(repo, "libmspack/mspack")
    out = ["/- GENERATED by /verif/translate/translate.py from the current /repo working tree. Do not edit. -/",
           "namespace MsPack.Generated", ""]
    for (fn, cname, lname) in TABLES:
        src = strip_comments(open(os.path.join(msp, fn)).read())
        t = extract_table(src, cname)
        if t is None:
            die(f"table {cname} not found in {fn}")
        dim, vals = t
        out.append(f"/-- `{cname}` ({fn}), declared dimension {dim} -/")
        out.append(f"def {lname} : List Nat := {lean_list(vals)}")
        out.append(f"def {lname}Dim : Nat := {dim}")
        out.append("")
    # lsb_bit_mask from readbits.h
    src = strip_comments(open(os.path.join(msp, "readbits.h")).read())
    t = extract_table(src, "lsb_bit_mask")
    if t is None:
        die("lsb_bit_mask not found in readbits.h")
    out.append("/-- `lsb_bit_mask` (readbits.h) -/")
    out.append(f"def lsbBitMask : List Nat := {lean_list(t[1])}")
    out.append(f"def lsbBitMaskDim : Nat := {t[0]}")
    out.append("")
    out.append("end MsPack.Generated")
    return write_if_changed(os.path.join(outdir, "Tables.lean"), "\n".join(out) + "\n")

def gen_consts(repo, outdir, work):
    msp = os.path.join(repo, "libmspack/mspack")
    pc = os.path.join(work, "probe.c")
    open(pc, "w").write(PROBE)
    exe = os.path.join(work, "probe")
    r = subprocess.run(["gcc", "-w", "-o", exe, pc, "-I" + msp] + CFLAGS, capture_output=True, text=True)
    if r.returncode != 0:
        die("constant probe does not compile against the current headers:\n" + r.stderr[:2000])
    txt = subprocess.run([exe], capture_output=True, text=True, check=True).stdout
    out = ["/- GENERATED by /verif/translate/translate.py (compiled probe over the real headers). Do not edit. -/",
           "namespace MsPack.Generated", ""]
    for line in txt.splitlines():
        n, v = line.split()
        out.append(f"def {n} : Nat := {v}")
    out += ["", "end MsPack.Generated"]
    return write_if_changed(os.path.join(outdir, "Consts.lean"), "\n".join(out) + "\n")

def lean_str(s):
    return '"' + s.replace("\\", "\\\\").replace('"', '\\"') + '"'

def gen_inventory(repo, outdir, work):
    msp = os.path.join(repo, "libmspack/mspack")
    writable = []   # (tu, symbol)
    imports = set() # symbols the library's objects leave undefined: what it takes from libc (or from its own other TUs)
    defined = set()
    for tu in LIB_TUS:
        obj = os.path.join(work, tu + ".o")
        r = subprocess.run(["gcc", "-w", "-O1", "-c", "-o", obj, os.path.join(msp, tu), "-I" + msp] + CFLAGS,
                           capture_output=True, text=True)
        if r.returncode != 0:
            die(f"{tu} does not compile:\n" + r.stderr[:2000])
        nm = subprocess.run(["nm", obj], capture_output=True, text=True, check=True).stdout
        for line in nm.splitlines():
            parts = line.split()
            if len(parts) == 3 and parts[1] in "bBdDsScCgG":
                writable.append((tu, parts[2]))
            if len(parts) == 3 and parts[1] in "TDBRCGSVW": defined.add(parts[2])
            if len(parts) == 2 and parts[0] in "Uw": imports.add(parts[1])
    imports = sorted(x for x in imports - defined if x != "_GLOBAL_OFFSET_TABLE_")
    writable.sort()
    # every source line mentioning a writable static (normalised)
    uses = []
    for (tu, sym) in writable:
        base = sym.split(".")[0]
        src = strip_comments(open(os.path.join(msp, tu)).read())
        for line in src.splitlines():
            if re.search(r"\b" + re.escape(base) + r"\b", line):
                uses.append((tu, base, " ".join(line.split())))
    # other TUs may reference exported symbols
    exported = [(tu, s) for (tu, s) in writable if "." not in s]
    for tu in LIB_TUS:
        src = strip_comments(open(os.path.join(msp, tu)).read())
        for (dtu, sym) in exported:
            if dtu == tu:
                continue
            for line in src.splitlines():
                if re.search(r"\b" + re.escape(sym) + r"\b", line):
                    uses.append((tu, sym, " ".join(line.split())))
    uses = sorted(set(uses))
    # open() call sites
    opens = []
    for tu in LIB_TUS:
        src = strip_comments(open(os.path.join(msp, tu)).read())
        for m in re.finditer(r"(\w+(?:->\w+)*)\s*->\s*open\s*\(", src):
            # parse balanced args
            i = m.end(); depth = 1; j = i
            while depth and j < len(src):
                if src[j] == "(": depth += 1
                elif src[j] == ")": depth -= 1
                j += 1
            args = src[i:j - 1]
            parts = []; d = 0; cur = ""
            for ch in args:
                if ch == "(": d += 1
                if ch == ")": d -= 1
                if ch == "," and d == 0:
                    parts.append(" ".join(cur.split())); cur = ""
                else:
                    cur += ch
            parts.append(" ".join(cur.split()))
            if len(parts) == 3:
                opens.append((tu, parts[1], parts[2]))
    out = ["/- GENERATED by /verif/translate/translate.py (nm on freshly compiled objects + source scan). Do not edit. -/",
           "namespace MsPack.Generated", "",
           "/-- (translation unit, symbol) of every object placed in a writable section (.data/.bss/common) -/",
           "def writableStatics : List (String × String) := ["]
    out.append(",\n".join(f"  ({lean_str(a)}, {lean_str(b)})" for a, b in writable) + "]")
    out.append("")
    out.append("/-- every source line (comments stripped, whitespace normalised) that names one of them -/")
    out.append("def writableStaticUses : List (String × String × String) := [")
    out.append(",\n".join(f"  ({lean_str(a)}, {lean_str(b)}, {lean_str(c)})" for a, b, c in uses) + "]")
    out.append("")
    out.append("/-- every call of mspack_system::open in the library: (TU, filename argument, mode argument) -/")
    out.append("def openCallSites : List (String × String × String) := [")
    out.append(",\n".join(f"  ({lean_str(a)}, {lean_str(b)}, {lean_str(c)})" for a, b, c in opens) + "]")
    out.append("")
    out.append("/-- every symbol the library's objects import from outside the library (libc), gcc -O1 -/")
    out.append("def externalImports : List String := [")
    out.append(",\n".join(f"  {lean_str(a)}" for a in imports) + "]")
    out += ["", "end MsPack.Generated"]
    return write_if_changed(os.path.join(outdir, "Inventory.lean"), "\n".join(out) + "\n")

def main():
    ap = argparse.ArgumentParser()
    ap.add_argument("--repo", default=os.environ.get("VERIF_REPO", "/repo"))
    ap.add_argument("--out", default=os.path.join(os.path.dirname(os.path.abspath(__file__)), "..", "lean", "MsPack", "Generated"))
    ap.add_argument("--work", default=None)
    a = ap.parse_args()
    outdir = os.path.abspath(a.out)
    work = a.work or tempfile.mkdtemp(prefix="translate-", dir=os.path.join(os.path.dirname(os.path.abspath(__file__)), "..", "build") if os.path.isdir(os.path.join(os.path.dirname(os.path.abspath(__file__)), "..", "build")) else None)
    try:
        ch = [gen_tables(a.repo, outdir), gen_consts(a.repo, outdir, work), gen_inventory(a.repo, outdir, work)]
        print("translate: ok, changed=" + str(sum(ch)))
    finally:
        if not a.work:
            shutil.rmtree(work, ignore_errors=True)

if __name__ == "__main__":
    main()
